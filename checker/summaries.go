package main

import (
	"fmt"
	"go/types"
	"sort"
	"strings"

	"golang.org/x/tools/go/ssa"
)

// claimStore recognises claim.Store(<const>) / Swap(<const>); val is the constant stored.
func (m *Model) claimStore(in ssa.Instruction) (val bool, isConst bool, ok bool) {
	c, isCall := in.(*ssa.Call)
	if !isCall {
		return false, false, false
	}
	fld, meth, isAt := m.atomicCall(c)
	if !isAt || fld != m.Claim {
		return false, false, false
	}
	switch meth {
	case "Store", "Swap":
		if b, isB := constBool(c.Call.Args[1]); isB {
			return b, true, true
		}
		return false, false, true
	case "CompareAndSwap":
		if b, isB := constBool(c.Call.Args[2]); isB {
			return b, true, true
		}
		return false, false, true
	}
	return false, false, false
}

// specFor builds the parameter specialisation of a call site: bool parameters that
// receive constants.
func specFor(ci ssa.CallInstruction, callee *ssa.Function) map[string]bool {
	var spec map[string]bool
	args := ci.Common().Args
	for i, p := range callee.Params {
		if i >= len(args) {
			break
		}
		if b, ok := constBool(args[i]); ok {
			if spec == nil {
				spec = map[string]bool{}
			}
			spec[p.Name()] = b
		}
	}
	return spec
}

// implMuW is the lockset entry of the election mutex held for writing.
func (m *Model) implMuW() string { return m.path(m.Mu) + "/W" }
func (m *Model) implMuR() string { return m.path(m.Mu) + "/R" }

// mayDemote: can f, called with the given constant parameters, turn a standing
// leadership claim into false? A Store(false) that is only reached with the claim
// already observed false under the same write-lock hold is not a demotion.
// Calls through `go` are not followed (a spawned goroutine is its own root).
func (m *Model) mayDemote(f *ssa.Function, spec map[string]bool, depth int) bool {
	r, _ := m.mayDemoteRec(f, spec, map[string]bool{})
	return r
}

// mayDemoteRec returns the verdict and whether it is complete (not cut short by a
// cycle); only complete or positive verdicts are memoised, so the result does not
// depend on the order in which functions are asked about.
func (m *Model) mayDemoteRec(f *ssa.Function, spec map[string]bool, onStack map[string]bool) (bool, bool) {
	if f == nil || f.Blocks == nil {
		return false, true
	}
	key := fmt.Sprintf("%p|%s", f, specString(spec))
	if v, ok := m.demoteMemo[key]; ok {
		return v, true
	}
	if onStack[key] {
		return false, false
	}
	onStack[key] = true
	defer delete(onStack, key)
	la := m.Locks()
	facts, live := m.Facts(f, spec)
	res, complete := false, true
	for _, b := range liveBlocks(f) {
		if !live[b] {
			continue
		}
		for _, in := range b.Instrs {
			if val, isConst, ok := m.claimStore(in); ok && (!isConst || !val) && !m.isCtorCode(f) {
				// claim cleared here: a no-op only if a claim load made under the same
				// write-lock hold was false on every path to this block
				noop := false
				if la.MustBefore(in)[m.implMuW()] {
					for _, l := range facts[b] {
						if !l.Truth && m.isClaimLoadSym(l.S) {
							if ld, ok := l.S.V.(*ssa.Call); ok && (ld.Parent() == f || containsFn(m.bodyFns(f), ld.Parent())) && la.MustBefore(ld)[m.implMuW()] {
								noop = true // read in f, or in a phase of f's critical section (one call site)
							}
						}
					}
				}
				if !noop {
					res = true
				}
			}
			if ci, ok := in.(ssa.CallInstruction); ok {
				if _, isGo := in.(*ssa.Go); isGo {
					continue
				}
				if g := ci.Common().StaticCallee(); g != nil && m.isLib(g) && g != f {
					r, c := m.mayDemoteRec(g, specFor(ci, g), onStack)
					if r {
						res = true
					}
					if !c {
						complete = false
					}
				}
			}
		}
	}
	if res || complete {
		m.demoteMemo[key] = res
		return res, true
	}
	return res, false
}

func (m *Model) isLib(f *ssa.Function) bool {
	if f == nil {
		return false
	}
	t := topFunc(f)
	if t.Pkg == nil && t.Origin() != nil {
		return t.Origin().Pkg == m.P.Leader // an instantiation of a generic library function
	}
	return t.Pkg == m.P.Leader
}

// returnsPrevClaim: the result #0 of f is exactly "this call turned a standing claim into false":
// no constant false is returned after the claim was cleared, and every non-false result #0 of f is the claim's value as loaded
// under the write-lock hold in which f (or its callee) cleared the claim.
func (m *Model) returnsPrevClaim(f *ssa.Function, depth int) bool {
	if f == nil || f.Blocks == nil || depth > 4 {
		return false
	}
	sig := f.Signature
	if sig.Results().Len() != 1 || !types.Identical(sig.Results().At(0).Type(), types.Typ[types.Bool]) {
		return false
	}
	la := m.Locks()
	any := false
	for _, b := range liveBlocks(f) {
		if b == f.Recover {
			continue
		}
		ret, ok := b.Instrs[len(b.Instrs)-1].(*ssa.Return)
		if !ok {
			continue
		}
		v := returnValue(ret, 0)
		if k, isC := constBool(v); isC {
			if k {
				return false
			}
			// a constant false must not follow the clearing of the claim: the caller would take
			// "claim was already false" for granted and skip the demotion callback
			lost := false
			eachInstr(f, func(in ssa.Instruction) {
				if val, isConst, ok := m.claimStore(in); ok && isConst && !val {
					if reachableAfter(in, func(x ssa.Instruction) bool { return x == ssa.Instruction(ret) }) != nil {
						lost = true
					}
				}
			})
			if lost {
				return false
			}
			continue
		}
		switch x := v.(type) {
		case *ssa.Call:
			if m.isClaimLoadSym(m.Sym.Of(x)) {
				// the load must be under the write lock, and a claim clear must follow in this function
				if !la.MustBefore(x)[m.implMuW()] {
					return false
				}
				if reachableAfter(x, func(in ssa.Instruction) bool {
					val, isConst, ok := m.claimStore(in)
					return ok && isConst && !val && la.MustBefore(in)[m.implMuW()]
				}) == nil {
					return false
				}
				any = true
				continue
			}
			if g := x.Call.StaticCallee(); g != nil && m.isLib(g) && m.returnsPrevClaim(g, depth+1) {
				any = true
				continue
			}
			return false
		case *ssa.Extract:
			// the value comes out of a phase of f's critical section that lives in a function of its
			// own (one call site): there it is the claim as loaded under the write lock, or false
			hc, isCall := x.Tuple.(*ssa.Call)
			if !isCall {
				return false
			}
			h := hc.Call.StaticCallee()
			if h == nil || !m.isLib(h) || h.Blocks == nil || len(m.callers[h]) != 1 {
				return false
			}
			okAll, some := true, false
			for _, hb := range liveBlocks(h) {
				hret, isRet := hb.Instrs[len(hb.Instrs)-1].(*ssa.Return)
				if !isRet || hb == h.Recover || x.Index >= len(hret.Results) {
					continue
				}
				hv := returnValue(hret, x.Index)
				if k, isC := constBool(hv); isC {
					if k {
						okAll = false
					}
					continue
				}
				ld, isLd := hv.(*ssa.Call)
				if !isLd || !m.isClaimLoadSym(m.Sym.Of(ld)) || !la.MustBefore(ld)[m.implMuW()] {
					okAll = false
					continue
				}
				some = true
			}
			if !okAll || !some {
				return false
			}
			// the clear follows the phase, under the same write-lock hold
			if !la.MustBefore(hc)[m.implMuW()] || reachableAfter(hc, func(in ssa.Instruction) bool {
				val, isConst, ok := m.claimStore(in)
				return ok && isConst && !val && la.MustBefore(in)[m.implMuW()]
			}) == nil {
				return false
			}
			any = true
			continue
		default:
			return false
		}
	}
	return any
}

// funcValueTargets resolves a function value (closure, bound method, function) to library functions.
func (m *Model) funcValueTargets(v ssa.Value) []*ssa.Function {
	switch x := v.(type) {
	case *ssa.MakeClosure:
		if fn, ok := x.Fn.(*ssa.Function); ok {
			return []*ssa.Function{m.unwrapBound(fn)}
		}
	case *ssa.Function:
		return []*ssa.Function{m.unwrapBound(x)}
	case *ssa.ChangeType:
		return m.funcValueTargets(x.X)
	case *ssa.Call:
		// a closure factory: the function values a library function returns
		if g := x.Call.StaticCallee(); g != nil && m.isLib(g) && g.Blocks != nil && g.Signature.Results().Len() == 1 {
			if _, isSig := g.Signature.Results().At(0).Type().Underlying().(*types.Signature); isSig {
				var out []*ssa.Function
				for _, b := range liveBlocks(g) {
					if ret, ok := b.Instrs[len(b.Instrs)-1].(*ssa.Return); ok && b != g.Recover {
						for _, t := range m.funcValueTargets(returnValue(ret, 0)) {
							if !containsFn(out, t) {
								out = append(out, t)
							}
						}
					}
				}
				return out
			}
		}
	case *ssa.UnOp:
		// a function value kept in a local cell
		if al := m.Sym.resolveCell(x.X); al != nil {
			if st := singleStore(al, m.Sym); st != nil {
				return m.funcValueTargets(st)
			}
		}
	}
	return nil
}

// unwrapBound maps a synthetic bound-method wrapper / thunk to the method it calls.
func (m *Model) unwrapBound(fn *ssa.Function) *ssa.Function {
	if fn.Synthetic == "" {
		return fn
	}
	if obj, ok := fn.Object().(*types.Func); ok {
		if real := m.P.Prog.FuncValue(obj); real != nil {
			return real
		}
	}
	// fall back: the single static callee of the wrapper
	var callee *ssa.Function
	for _, b := range liveBlocks(fn) {
		for _, in := range b.Instrs {
			if c, ok := in.(*ssa.Call); ok {
				if sc := c.Call.StaticCallee(); sc != nil {
					callee = sc
				}
			}
		}
	}
	if callee != nil {
		return callee
	}
	return fn
}

// staticReach returns the library functions reachable from f through static calls
// (and closures created in them), not through go statements unless followGo.
func (m *Model) staticReach(f *ssa.Function, followGo bool) map[*ssa.Function]bool {
	seen := map[*ssa.Function]bool{}
	var walk func(g *ssa.Function)
	walk = func(g *ssa.Function) {
		if g == nil || seen[g] || g.Blocks == nil || !m.isLib(g) {
			return
		}
		seen[g] = true
		eachInstr(g, func(in ssa.Instruction) {
			switch in := in.(type) {
			case *ssa.Go:
				if followGo {
					if sc := in.Call.StaticCallee(); sc != nil {
						walk(sc)
					}
					for _, t := range m.funcValueTargets(in.Call.Value) {
						walk(t)
					}
				}
			case ssa.CallInstruction:
				cc := in.Common()
				if followGo {
					// a call of a spawn helper starts its function argument in a goroutine
					if sp := m.spawnAt(in); sp != nil {
						for _, t := range sp.Targets {
							walk(t)
						}
					}
				}
				if sc := cc.StaticCallee(); sc != nil {
					walk(sc)
				}
				if !cc.IsInvoke() {
					for _, t := range m.funcValueTargets(cc.Value) {
						walk(t)
					}
				}
			}
		})
	}
	walk(f)
	return seen
}

// errorType reports whether t is the built-in error interface.
func isErrorType(t types.Type) bool {
	return types.Identical(t, types.Universe.Lookup("error").Type())
}

func symMentions(s *Sym, subs ...string) bool {
	str := s.String()
	for _, x := range subs {
		if strings.Contains(str, x) {
			return true
		}
	}
	return false
}

// cutReach: is target reachable from the function entry when the CFG edges for which
// cut(pred, succIndex) is true are removed?
func cutReach(target *ssa.BasicBlock, cut func(pred *ssa.BasicBlock, succ int) bool) bool {
	f := target.Parent()
	seen := map[*ssa.BasicBlock]bool{}
	var walk func(b *ssa.BasicBlock) bool
	walk = func(b *ssa.BasicBlock) bool {
		if b == target {
			return true
		}
		if seen[b] {
			return false
		}
		seen[b] = true
		for i, s := range b.Succs {
			if cut(b, i) || deadEdge(b, i) {
				continue
			}
			if walk(s) {
				return true
			}
		}
		return false
	}
	return walk(f.Blocks[0])
}

// edgeLit returns the literal carried by the edge pred->succ #i (if pred ends in If).
func (m *Model) edgeLit(pred *ssa.BasicBlock, i int) (Lit, bool) {
	if ifi, ok := pred.Instrs[len(pred.Instrs)-1].(*ssa.If); ok && len(pred.Succs) == 2 && pred.Succs[0] != pred.Succs[1] {
		return m.litOf(ifi.Cond, i == 0, ifi), true
	}
	return Lit{}, false
}

// ValidateFn is the (bool, error) function reached from Impl.ValidateToken that reads the record.
func (m *Model) ValidateFn() *ssa.Function {
	if m.validateFn != nil {
		return m.validateFn
	}
	api := m.method("ValidateToken")
	if api == nil {
		return nil
	}
	var cands []*ssa.Function
	for _, g := range sortedFns(m.staticReach(api, false)) {
		if g == api || g.Parent() != nil {
			continue
		}
		res := g.Signature.Results()
		if res.Len() != 2 || !types.Identical(res.At(0).Type(), types.Typ[types.Bool]) || !isErrorType(res.At(1).Type()) {
			continue
		}
		hasGet := false
		for _, h := range sortedFns(m.staticReach(g, true)) {
			eachInstr(h, func(in ssa.Instruction) {
				if _, ok := m.isKVCall(valueOf(in), "Get"); ok {
					hasGet = true
				}
			})
		}
		if hasGet {
			cands = append(cands, g)
		}
	}
	// the outermost candidate: not reached from another one
	for _, g := range cands {
		inner := false
		for _, o := range cands {
			if o != g && m.staticReach(o, true)[g] {
				inner = true
			}
		}
		if !inner {
			m.validateFn = g
			break
		}
	}
	return m.validateFn
}

// isWGCall recognises <Impl.wg>.<method>(...) calls.
func (m *Model) isWGCall(in ssa.Instruction, method string) bool {
	ci, ok := in.(ssa.CallInstruction)
	if !ok {
		return false
	}
	f := ci.Common().StaticCallee()
	if f == nil || f.String() != "(*sync.WaitGroup)."+method || len(ci.Common().Args) == 0 {
		return false
	}
	return m.Sym.Of(ci.Common().Args[0]).String() == "&"+m.path(m.WG)
}

// goTracked: wg.Add(1) on the election WaitGroup precedes the go statement in its block
// (nothing but non-call instructions in between that could fail), and the goroutine's
// function defers wg.Done before doing anything else.
func (m *Model) goTracked(g *ssa.Go) bool {
	added := false
	b := g.Block()
	for i := instrIndex(g) - 1; i >= 0; i-- {
		in := b.Instrs[i]
		if m.isWGCall(in, "Add") {
			if n, ok := constInt(in.(*ssa.Call).Call.Args[1]); ok && n == 1 {
				added = true
			}
			break
		}
		if _, isCall := in.(ssa.CallInstruction); isCall {
			break
		}
	}
	if !added {
		return false
	}
	var targets []*ssa.Function
	if sc := g.Call.StaticCallee(); sc != nil {
		targets = append(targets, sc)
	}
	targets = append(targets, m.funcValueTargets(g.Call.Value)...)
	if len(targets) == 0 {
		return false
	}
	for _, t := range targets {
		if !m.defersDoneFirst(t) {
			return false
		}
	}
	return true
}

// defersDoneFirst: the first call-like instructions of f's entry block include
// `defer wg.Done()` before any other call (other deferred calls may precede it).
func (m *Model) defersDoneFirst(f *ssa.Function) bool {
	if f == nil || len(f.Blocks) == 0 {
		return false
	}
	for _, in := range f.Blocks[0].Instrs {
		if d, ok := in.(*ssa.Defer); ok {
			if m.isWGCall(d, "Done") {
				return true
			}
			continue
		}
		if _, isCall := in.(*ssa.Call); isCall {
			return false
		}
		if _, isGo := in.(*ssa.Go); isGo {
			return false
		}
	}
	return false
}

// sortedFns returns the functions of a set in source order (deterministic iteration).
func sortedFns(set map[*ssa.Function]bool) []*ssa.Function {
	var out []*ssa.Function
	for f := range set {
		out = append(out, f)
	}
	sort.Slice(out, func(i, j int) bool {
		if out[i].Pos() != out[j].Pos() {
			return out[i].Pos() < out[j].Pos()
		}
		return out[i].String() < out[j].String()
	})
	return out
}

// stopFrame lifts an instruction to the stop unit that (uniquely, through static calls)
// executes it: a Delete moved into a helper of StopWithContext is still part of the stop.
func (m *Model) stopFrame(in ssa.Instruction) (fn *ssa.Function, at ssa.Instruction, ok bool) {
	fn, at = in.Parent(), in
	for depth := 0; depth < 4; depth++ {
		if containsFn(m.StopUnits, fn) {
			return fn, at, true
		}
		if fn.Parent() != nil {
			return fn, at, false
		}
		var sites []CallSite
		for _, cs := range m.callers[fn] {
			if !cs.IsGo {
				sites = append(sites, cs)
			} else {
				return fn, at, false
			}
		}
		if len(sites) != 1 {
			return fn, at, false
		}
		fn, at = sites[0].Caller, sites[0].Instr
	}
	return fn, at, false
}

// OpFrame is one calling context of an instruction: the chain of plain calls (outermost first) that
// leads from Root to the function containing it. At is the instruction of Root that stands for it
// (the outermost call, or the instruction itself). Stop: Root is a stop unit.
type OpFrame struct {
	Root  *ssa.Function
	At    ssa.Instruction
	Chain []ssa.CallInstruction
	Stop  bool
	ViaGo bool // the chain starts in a goroutine that the stop unit starts and waits for
}

// opFrames enumerates the calling contexts of an instruction up to the nearest stop unit,
// closure, goroutine entry or function without callers (depth-bounded).
func (m *Model) opFrames(in ssa.Instruction) []OpFrame {
	var out []OpFrame
	var walk func(fn *ssa.Function, at ssa.Instruction, chain []ssa.CallInstruction, depth int)
	walk = func(fn *ssa.Function, at ssa.Instruction, chain []ssa.CallInstruction, depth int) {
		if containsFn(m.StopUnits, fn) {
			out = append(out, OpFrame{Root: fn, At: at, Chain: chain, Stop: true})
			return
		}
		var sites []CallSite
		for _, cs := range m.callers[fn] {
			if !cs.IsGo && !cs.IsDef {
				sites = append(sites, cs)
			}
		}
		// a goroutine that a stop unit starts and waits for belongs to that stop call
		if depth < 4 {
			for _, sp := range m.Spawns() {
				for _, t := range sp.Targets {
					if t == fn && containsFn(m.StopUnits, topFunc(sp.Fn)) && m.awaitedBySpawner(sp) {
						out = append(out, OpFrame{Root: topFunc(sp.Fn), At: sp.At, Chain: chain, Stop: true, ViaGo: true})
						return
					}
				}
			}
		}
		if fn.Parent() != nil || len(sites) == 0 || depth >= 4 {
			out = append(out, OpFrame{Root: fn, At: at, Chain: chain})
			return
		}
		for _, cs := range sites {
			walk(cs.Caller, cs.Instr, append([]ssa.CallInstruction{cs.Instr}, chain...), depth+1)
		}
	}
	walk(in.Parent(), in, nil, 0)
	return out
}

// awaitedBySpawner: the spawned function closes (or sends on) a channel when it ends, and the
// spawning function waits for that channel in a blocking select that the spawn dominates and
// from whose other cases (timer, context) no `return nil` is reachable: when the spawner returns
// successfully, the goroutine has finished.
func (m *Model) awaitedBySpawner(sp Spawn) bool {
	if v, ok := m.awaitedMemo[sp.At]; ok {
		return v
	}
	if m.awaitedMemo == nil {
		m.awaitedMemo = map[ssa.Instruction]bool{}
	}
	m.awaitedMemo[sp.At] = false
	signals := map[string]bool{}
	if sp.Signal != nil {
		signals[m.Sym.Of(sp.Signal).String()] = true
	} else {
		for _, t := range sp.Targets {
			eachInstr(t, func(in ssa.Instruction) {
				switch x := in.(type) {
				case *ssa.Call:
					if b, isB := x.Call.Value.(*ssa.Builtin); isB && b.Name() == "close" && len(x.Call.Args) == 1 {
						signals[m.Sym.Of(m.traceValue(x.Call.Args[0])).String()] = true
					}
				case *ssa.Defer:
					if b, isB := x.Call.Value.(*ssa.Builtin); isB && b.Name() == "close" && len(x.Call.Args) == 1 {
						signals[m.Sym.Of(m.traceValue(x.Call.Args[0])).String()] = true
					}
				case *ssa.Send:
					signals[m.Sym.Of(m.traceValue(x.Chan)).String()] = true
				}
			})
		}
	}
	f := sp.Fn
	ok := false
	// the wait may sit in a function the spawner's body was split into (one call site)
	m.eachUnitInstr(f, func(in ssa.Instruction) {
		sel, isSel := in.(*ssa.Select)
		if !isSel || !sel.Blocking {
			return
		}
		if lifted := m.liftTo(f, in); lifted == nil || !dominatesInstr(sp.At, lifted) {
			return
		}
		waitCase := -1
		for k, st := range sel.States {
			if st.Dir == types.RecvOnly && signals[m.Sym.Of(m.traceValue(st.Chan)).String()] {
				waitCase = k
			}
		}
		if waitCase < 0 {
			return
		}
		// from the other cases no successful return
		good := true
		m.edgeHook = func(l Lit, flag int) (int, bool) {
			if s2, k, isCase := selectCaseOf(l); isCase && s2 == sel && k == waitCase {
				return flag, true // the awaited case: fine
			}
			return flag, false
		}
		m.exploreFrom(in, 0, func(x ssa.Instruction, flag int) (int, bool) { return flag, false }, func(last ssa.Instruction, flag int) {
			if ret, isRet := last.(*ssa.Return); isRet && ret.Parent() == f && len(ret.Results) > 0 {
				v := returnValue(ret, len(ret.Results)-1)
				if k, isC := v.(*ssa.Const); isC && k.Value == nil && isErrorType(v.Type()) {
					good = false
				}
			}
		})
		m.edgeHook = nil
		if good {
			ok = true
		}
	})
	m.awaitedMemo[sp.At] = ok
	return ok
}

// frameGuards: the literals that hold at the instruction in this calling context: the guards at
// every call of the chain and at the instruction itself.
func (m *Model) frameGuards(fr OpFrame, in ssa.Instruction) []Lit {
	var gs []Lit
	if fr.ViaGo && fr.At != nil {
		gs = append(gs, m.GuardsAt(fr.At)...)
	}
	for _, ci := range fr.Chain {
		gs = append(gs, m.GuardsAt(ci)...)
	}
	gs = append(gs, m.GuardsAt(in)...)
	return gs
}

// OriginsInFrame is Origins with the parameters of the functions along the frame's chain bound
// to the arguments of that chain (one calling context instead of the union over all callers).
func (m *Model) OriginsInFrame(v ssa.Value, fr OpFrame) originSet {
	pc := &provCtx{m: m, busy: map[string]bool{}}
	for _, ci := range fr.Chain {
		callee := ci.Common().StaticCallee()
		if callee == nil {
			continue
		}
		b := map[*ssa.Parameter]ssa.Value{}
		for i, p := range callee.Params {
			if i < len(ci.Common().Args) {
				b[p] = ci.Common().Args[i]
			}
		}
		pc.frames = append(pc.frames, b)
	}
	out := originSet{}
	pc.walk(v, "", out, 0)
	return out
}

// Spawn is a place where the library starts a goroutine: a go statement, or a call of a
// "spawn helper" (a function that does wg.Add(1); go func(){ defer wg.Done(); fn() }() for a
// function parameter fn), in which case At is the call of the helper.
type Spawn struct {
	At      ssa.Instruction
	Fn      *ssa.Function
	Targets []*ssa.Function
	Tracked bool
	Go      *ssa.Go
	// Signal: for a call of a helper that starts a goroutine and returns the channel on which the
	// goroutine signals its end (done := e.startX(...)), the call's value (that channel)
	Signal ssa.Value
}

func (m *Model) Spawns() []Spawn {
	if m.spawns != nil {
		return m.spawns
	}
	type helper struct {
		g   *ssa.Go
		idx int
	}
	helpers := map[*ssa.Function]helper{}
	for _, h := range m.Funcs {
		if h.Parent() != nil {
			continue
		}
		var gos []*ssa.Go
		eachInstr(h, func(in ssa.Instruction) {
			if g, ok := in.(*ssa.Go); ok {
				gos = append(gos, g)
			}
		})
		if len(gos) != 1 {
			continue
		}
		for _, t := range m.funcValueTargets(gos[0].Call.Value) {
			eachInstr(t, func(in ssa.Instruction) {
				call, ok := in.(*ssa.Call)
				if !ok || call.Call.IsInvoke() || call.Call.StaticCallee() != nil {
					return
				}
				// the called value is (a captured copy of) a parameter of h
				v := call.Call.Value
				if u, ok := v.(*ssa.UnOp); ok {
					if al := m.Sym.resolveCell(u.X); al != nil {
						if st := singleStore(al, m.Sym); st != nil {
							v = st
						}
					}
				}
				if fv, ok := v.(*ssa.FreeVar); ok {
					if mc := m.Sym.closureOf[fv.Parent()]; mc != nil {
						for i, x := range fv.Parent().FreeVars {
							if x == fv && i < len(mc.Bindings) {
								v = mc.Bindings[i]
							}
						}
					}
				}
				if p, ok := v.(*ssa.Parameter); ok && p.Parent() == h {
					for i, q := range h.Params {
						if q == p {
							helpers[h] = helper{gos[0], i}
						}
					}
				}
			})
		}
	}
	// "future" helpers: one go statement, and the function returns the channel (made in it) that
	// the goroutine closes or sends on when it ends
	futures := map[*ssa.Function]*ssa.Go{}
	for _, h := range m.Funcs {
		if h.Parent() != nil || h.Signature.Results().Len() != 1 {
			continue
		}
		if _, isChan := h.Signature.Results().At(0).Type().Underlying().(*types.Chan); !isChan {
			continue
		}
		var gos []*ssa.Go
		eachInstr(h, func(in ssa.Instruction) {
			if g, ok := in.(*ssa.Go); ok {
				gos = append(gos, g)
			}
		})
		if len(gos) != 1 {
			continue
		}
		var made ssa.Value
		okRet := true
		for _, b := range liveBlocks(h) {
			if ret, ok := b.Instrs[len(b.Instrs)-1].(*ssa.Return); ok && b != h.Recover {
				v := m.traceValue(returnValue(ret, 0))
				for {
					if ct, ok := v.(*ssa.ChangeType); ok {
						v = m.traceValue(ct.X)
						continue
					}
					break
				}
				if mc, ok := v.(*ssa.MakeChan); ok && (made == nil || made == ssa.Value(mc)) {
					made = mc
				} else {
					okRet = false
				}
			}
		}
		if made == nil || !okRet {
			continue
		}
		signals := false
		for _, t := range m.funcValueTargets(gos[0].Call.Value) {
			eachInstr(t, func(in ssa.Instruction) {
				switch x := in.(type) {
				case *ssa.Call:
					if b, isB := x.Call.Value.(*ssa.Builtin); isB && b.Name() == "close" && len(x.Call.Args) == 1 && m.traceValue(x.Call.Args[0]) == made {
						signals = true
					}
				case *ssa.Defer:
					if b, isB := x.Call.Value.(*ssa.Builtin); isB && b.Name() == "close" && len(x.Call.Args) == 1 && m.traceValue(x.Call.Args[0]) == made {
						signals = true
					}
				case *ssa.Send:
					if m.traceValue(x.Chan) == made {
						signals = true
					}
				}
			})
		}
		if signals {
			futures[h] = gos[0]
		}
	}
	var out []Spawn
	for _, f := range m.Funcs {
		eachInstr(f, func(in ssa.Instruction) {
			switch x := in.(type) {
			case *ssa.Go:
				if hp, ok := helpers[topFunc(f)]; ok && hp.g == x {
					return // reported at the helper's call sites
				}
				if fg, ok := futures[topFunc(f)]; ok && fg == x {
					return // reported at the helper's call sites
				}
				var ts []*ssa.Function
				if sc := x.Call.StaticCallee(); sc != nil {
					ts = append(ts, sc)
				}
				ts = append(ts, m.funcValueTargets(x.Call.Value)...)
				out = append(out, Spawn{At: x, Fn: f, Targets: dedupFns(ts), Tracked: m.goTracked(x), Go: x})
			case *ssa.Call:
				if h := x.Call.StaticCallee(); h != nil {
					if hp, ok := helpers[h]; ok && hp.idx < len(x.Call.Args) {
						out = append(out, Spawn{At: x, Fn: f, Targets: dedupFns(m.funcValueTargets(x.Call.Args[hp.idx])), Tracked: m.goTracked(hp.g), Go: hp.g})
					}
					if fg, ok := futures[h]; ok {
						var ts []*ssa.Function
						if sc := fg.Call.StaticCallee(); sc != nil {
							ts = append(ts, sc)
						}
						ts = append(ts, m.funcValueTargets(fg.Call.Value)...)
						out = append(out, Spawn{At: x, Fn: f, Targets: dedupFns(ts), Tracked: m.goTracked(fg), Go: fg, Signal: x})
					}
				}
			}
		})
	}
	m.spawns = out
	if m.spawns == nil {
		m.spawns = []Spawn{}
	}
	return m.spawns
}

// spawnAt returns the spawn whose site is the instruction, if any.
func (m *Model) spawnAt(in ssa.Instruction) *Spawn {
	for i := range m.Spawns() {
		if m.spawns[i].At == in {
			return &m.spawns[i]
		}
	}
	return nil
}

// spawnsStoreOp: the instruction starts a goroutine that can issue store operations.
func (m *Model) spawnsStoreOp(in ssa.Instruction) bool {
	sp := m.spawnAt(in)
	if sp == nil {
		return false
	}
	for _, t := range sp.Targets {
		if m.reachesStoreOp(t) {
			return true
		}
	}
	return false
}

// WaitSite is a bounded wait for a duration: a blocking select with a time.After case, or a
// call of a wait helper (a loop-free library function whose only blocking instruction is such a
// select on one of its parameters). Dur is the duration value at the site (the argument for a helper).
type WaitSite struct {
	At   ssa.Instruction
	Dur  ssa.Value
	Done bool // the wait also ends on a context's Done channel
}

func (m *Model) waitSites(f *ssa.Function) []WaitSite {
	var out []WaitSite
	eachInstr(f, func(in ssa.Instruction) {
		switch x := in.(type) {
		case *ssa.Select:
			if w, ok := m.selectWait(x); ok {
				out = append(out, w)
			}
		case *ssa.Call:
			h := x.Call.StaticCallee()
			if h == nil || !m.isLib(h) || h == f || len(cfgLoops(h)) > 0 {
				return
			}
			var ws []WaitSite
			nBlocking := 0
			eachInstr(h, func(y ssa.Instruction) {
				if m.isBlockingInstr(y) {
					nBlocking++
				}
				if sel, ok := y.(*ssa.Select); ok {
					if w, ok := m.selectWait(sel); ok {
						ws = append(ws, w)
					}
				}
			})
			if len(ws) != 1 || nBlocking != 1 {
				return
			}
			p, ok := ws[0].Dur.(*ssa.Parameter)
			if !ok {
				return
			}
			for i, q := range h.Params {
				if q == p && i < len(x.Call.Args) {
					out = append(out, WaitSite{At: x, Dur: x.Call.Args[i], Done: ws[0].Done})
				}
			}
		}
	})
	return out
}

func (m *Model) selectWait(sel *ssa.Select) (WaitSite, bool) {
	if !sel.Blocking {
		return WaitSite{}, false
	}
	w := WaitSite{At: sel}
	for _, st := range sel.States {
		if call, ok := isCallTo(st.Chan, "time.After"); ok {
			w.Dur = call.Call.Args[0]
		}
		if s := m.Sym.Of(st.Chan); s.Op == "invoke" && strings.HasSuffix(s.Name, "Context.Done") {
			w.Done = true
		}
	}
	return w, w.Dur != nil
}

// mustBlock: every path from f's entry to a return passes a blocking instruction
// (or a call of a library function that must block).
func (m *Model) mustBlock(f *ssa.Function) bool {
	if m.mustBlockMemo == nil {
		m.mustBlockMemo = map[*ssa.Function]bool{}
	}
	if v, ok := m.mustBlockMemo[f]; ok {
		return v
	}
	m.mustBlockMemo[f] = false // recursion: assume not
	if f.Blocks == nil {
		return false
	}
	blocked := map[*ssa.BasicBlock]bool{}
	for _, b := range f.Blocks {
		for _, in := range b.Instrs {
			if m.isBlockingInstr(in) {
				blocked[b] = true
			}
		}
	}
	res := true
	seen := map[*ssa.BasicBlock]bool{}
	var walk func(b *ssa.BasicBlock)
	walk = func(b *ssa.BasicBlock) {
		if seen[b] || blocked[b] {
			return
		}
		seen[b] = true
		if _, ok := b.Instrs[len(b.Instrs)-1].(*ssa.Return); ok {
			res = false
		}
		for i, s := range b.Succs {
			if !deadEdge(b, i) {
				walk(s)
			}
		}
	}
	walk(f.Blocks[0])
	m.mustBlockMemo[f] = res
	return res
}

// inClaimUnit: f belongs to the code of a claim-set unit (the unit, the single-call-site functions
// its body is split into, or a closure of one of them).
func (m *Model) inClaimUnit(f *ssa.Function) bool {
	for _, u := range m.ClaimSet {
		if containsFn(m.unitFns(u), f) {
			return true
		}
	}
	return false
}

// eachUnitInstr visits the instructions of a unit's own goroutine: the unit function and the
// functions called (plain calls) from exactly one place in it, not its closures.
func (m *Model) eachUnitInstr(unit *ssa.Function, fn func(in ssa.Instruction)) {
	for _, g := range m.bodyFns(unit) {
		eachInstr(g, fn)
	}
}

// unitGuards: the literals that hold at an instruction of a unit: its block's guards and those
// inherited through the single call sites up to the unit.
func (m *Model) unitGuards(unit *ssa.Function, in ssa.Instruction) []Lit {
	gs := append([]Lit{}, m.GuardsAt(in)...)
	f := in.Parent()
	for i := 0; i < 6 && f != unit && f != nil; i++ {
		if f.Parent() != nil {
			if mc := m.Sym.closureOf[f]; mc != nil {
				gs = append(gs, m.GuardsAt(mc)...)
				f = mc.Parent()
				continue
			}
			break
		}
		sites := m.callers[f]
		if len(sites) != 1 {
			break
		}
		gs = append(gs, m.GuardsAt(sites[0].Instr)...)
		f = sites[0].Caller
	}
	return gs
}


// symInUnit: the symbolic form of a value of a unit function, with the parameters of the
// single-call-site functions between it and the unit replaced by the call's arguments.
func (m *Model) symInUnit(unit *ssa.Function, v ssa.Value) *Sym {
	s := m.Sym.Of(v)
	f := v.Parent()
	for i := 0; i < 6 && f != nil && f != unit && f.Parent() == nil; i++ {
		sites := m.callers[f]
		if len(sites) != 1 {
			break
		}
		args := sites[0].Instr.Common().Args
		sub := map[string]*Sym{}
		for j, p := range f.Params {
			if j < len(args) {
				sub["param:"+p.Name()] = m.Sym.Of(args[j])
			}
		}
		s = substSym(s, sub)
		f = sites[0].Caller
	}
	return s
}

// gatedInUnit is Gated for a value of a function the unit's body was split into: the parameters
// of that function are replaced by the gated forms of the arguments at its single call site.
func (m *Model) gatedInUnit(unit *ssa.Function, v ssa.Value) string {
	f := v.Parent()
	if f == nil || f == unit || f.Parent() != nil {
		return m.Gated(v)
	}
	sites := m.callers[f]
	if len(sites) != 1 {
		return m.Gated(v)
	}
	args := sites[0].Instr.Common().Args
	sub := map[string]*Sym{}
	for j, p := range f.Params {
		if j < len(args) {
			sub["param:"+p.Name()] = &Sym{Op: "unknown", Name: m.Gated(args[j])}
		}
	}
	return substSym(m.Sym.Of(v), sub).String()
}

// resultOfFrameFunction: the literal tests the result of a function that lies on the frame's own
// call chain to the operation (the function that contains the operation, or one that calls it).
func (m *Model) resultOfFrameFunction(l Lit, fr OpFrame, op ssa.Instruction) bool {
	call, _, _, _, ok := m.resultTest(l)
	if !ok {
		return false
	}
	g := call.Call.StaticCallee()
	if g == nil {
		return false
	}
	if op.Parent() == g {
		return true
	}
	for _, ci := range fr.Chain {
		if ci.Parent() == g {
			return true
		}
	}
	return false
}

// isWaitHelperResult: the literal tests the result of a wait helper - a loop-free library function
// with one call site whose only blocking instruction is a select and which reaches no store
// operation and no store of the claim; its result says which case of the select was taken.
func (m *Model) isWaitHelperResult(l Lit) bool {
	call, _, _, _, ok := m.resultTest(l)
	if !ok {
		return false
	}
	g := call.Call.StaticCallee()
	if g == nil || !m.isLib(g) || len(m.callers[g]) != 1 || len(cfgLoops(g)) > 0 {
		return false
	}
	nSel, nOther := 0, 0
	eachInstr(g, func(in ssa.Instruction) {
		if sel, isSel := in.(*ssa.Select); isSel && sel.Blocking {
			nSel++
		} else if m.isBlockingInstr(in) {
			nOther++
		}
	})
	return nSel == 1 && nOther == 0 && m.P.isPlumbingHelper(m, g, false)
}

// unitGuardsSubst is unitGuards with the parameters of the single-call-site functions replaced
// by the arguments of their call sites, so that a test of a helper's parameter reads as a test of
// what the unit passed in.
func (m *Model) unitGuardsSubst(unit *ssa.Function, in ssa.Instruction) []Lit {
	gs := append([]Lit{}, m.GuardsAt(in)...)
	f := in.Parent()
	for i := 0; i < 6 && f != unit && f != nil; i++ {
		if f.Parent() != nil {
			if mc := m.Sym.closureOf[f]; mc != nil {
				gs = append(gs, m.GuardsAt(mc)...)
				f = mc.Parent()
				continue
			}
			break
		}
		sites := m.callers[f]
		if len(sites) != 1 {
			break
		}
		args := sites[0].Instr.Common().Args
		sub := map[string]*Sym{}
		for j, p := range f.Params {
			if j < len(args) {
				sub["param:"+p.Name()] = m.Sym.Of(args[j])
			}
		}
		for j := range gs {
			gs[j].S = substSym(gs[j].S, sub)
		}
		gs = append(gs, m.GuardsAt(sites[0].Instr)...)
		f = sites[0].Caller
	}
	return gs
}

// ownerOf: the function whose body f is part of: f itself, or - if f is an unexported function
// with exactly one (plain) call site - the owner of its caller.
func (m *Model) ownerOf(f *ssa.Function) *ssa.Function {
	for i := 0; i < 6; i++ {
		if f.Parent() != nil {
			return f
		}
		if obj := f.Object(); obj != nil && obj.Exported() {
			return f
		}
		sites := m.callers[f]
		if len(sites) != 1 || sites[0].IsGo || sites[0].IsDef {
			return f
		}
		f = sites[0].Caller
	}
	return f
}
